#!/usr/bin/env python3
"""Maintenance tool: record which functions write which fields of the crate's state-carrying structs (tables/field_writers.json)."""
import json, os, sys
os.environ["VERIF_NO_INLINE"] = "1"
V = os.path.join(os.path.dirname(os.path.abspath(__file__)), "..")
sys.path.insert(0, os.path.join(V, "rules"))
import mir, corerules
import common
ADTS = ["Document", "IncrementalDocument", "Stream", "Xref", "XrefSection", "PageTreeIter", "EncryptionState", "PasswordAlgorithm", "Bookmark", "Reader", "CountingWrite", "ObjectStream", "ToUnicodeCMap", "Toc"]
t = {}
for cfg in ["default"] + list(common.THOROUGH_CONFIGS):
    F = mir.load(cfg)
    for k, v in corerules.field_writer_table(F, ADTS).items():
        t[k] = sorted(set(t.get(k, [])) | set(v))
json.dump(t, open(os.path.join(V, "tables", "field_writers.json"), "w"), indent=1, sort_keys=True)
print(len(t), "fields;", sum(len(v) for v in t.values()), "writer entries")
