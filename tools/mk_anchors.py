#!/usr/bin/env python3
"""Maintenance tool: record, for every crate-local function of the pinned tree, its type signature and callers, so that a
later *rename* of a private function can be recognised (same impl type, same signature, same callers) instead of
losing every rule anchored on the old name."""
import json, os, sys
os.environ["VERIF_NO_INLINE"] = "1"   # record the tree as the compiler sees it: no inlining of new helpers, no rename resolution
V = os.path.join(os.path.dirname(os.path.abspath(__file__)), "..")
sys.path.insert(0, os.path.join(V, "rules"))
import mir
F = mir.load("default")
out = {}
callers = {}
for p, b in F.bodies.items():
    for q in F.callgraph.get(p, ()):
        qb = F.bodies.get(q)
        if qb is not None and qb.kind != "Closure":
            root = b
            while root.kind == "Closure":
                root = F.bodies.get(root.path.rsplit("::{closure", 1)[0], root)
                if root.kind == "Closure" and "::{closure" not in root.path:
                    break
            callers.setdefault(F.canon_of(qb), set()).add(F.canon_of(root))
for p, b in F.bodies.items():
    if b.kind == "Closure":
        continue
    c = F.canon_of(b)
    if len(F.canon.get(c, [])) != 1:
        continue
    out[c] = {"kind": b.kind, "self_ty": b.self_ty, "impl_of": b.impl_of, "file": b.file,
              "sig": [b.lty(i) for i in range(0, b.argc + 1)], "callers": sorted(callers.get(c, ()))}
json.dump(out, open(os.path.join(V, "tables", "anchors.json"), "w"), indent=0, sort_keys=True)
print(len(out), "anchors")

# data anchors: field lists of crate-local structs and values of named constants, so that a rename of a private field or
# constant is recognised (same position and type / same module, type and value)
data = {"adts": {}, "consts": {}}
for name, a in F.adts.items():
    data["adts"][name] = [[[f["n"], f["ty"], f["vis"]] for f in v["fields"]] for v in a["variants"]]
for name, c in F.consts.items():
    val = c.get("raw") or c.get("int") or c.get("bytes")
    if val is not None and "::{" not in name:
        data["consts"][name] = {"ty": c.get("ty"), "val": val}
json.dump(data, open(os.path.join(V, "tables", "data_anchors.json"), "w"), indent=0, sort_keys=True)
print(len(data["adts"]), "adts", len(data["consts"]), "consts")
