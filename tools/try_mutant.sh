#!/bin/bash
# try_mutant.sh <patch> <prop>...  — apply a change to /repo, run the named checks, undo it straight afterwards.
set -u
P="$1"; shift
cd /verif
export VERIF_SCRATCH=1   # evidence of runs against a modified /repo goes to .cache/scratch-evidence
git -C /repo apply "$P" || { echo "PATCH DOES NOT APPLY to /repo"; exit 2; }
for c in "$@"; do ./check "$c" 2>&1 | grep -E "VIOLATION|new violation|BROKEN|^  [A-Za-z-]+:" | cut -c1-260; done
git -C /repo checkout -- . && git -C /repo clean -fdq src
