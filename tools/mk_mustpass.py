#!/usr/bin/env python3
"""Maintenance tool: record the must-pass / every-turn / loop-exit summaries of the reviewed tree (rules/mustpass.py)."""
import json, os, sys
V = os.path.join(os.path.dirname(os.path.abspath(__file__)), "..")
sys.path.insert(0, os.path.join(V, "rules"))
import mir, mustpass
import common
cfgs = ["default"] + (list(common.THOROUGH_CONFIGS) if "--all" in sys.argv else [])
for cfg in cfgs:
    F = mir.load(cfg)
    out, _ = mustpass.compute(F)
    json.dump(out, open(os.path.join(V, "tables", "mustpass.json" if cfg == "default" else "mustpass-%s.json" % cfg), "w"), indent=0, sort_keys=True)
    print(cfg, len(out), "functions;", sum(len(e["mp"]) for e in out.values()), "must-pass;", sum(len(e["turn"]) for e in out.values()), "every-turn;", sum(len(e.get("loops", [])) for e in out.values()), "loops;", sum(len(v) for e in out.values() for v in e.get("arms", {}).values()), "arm facts")
