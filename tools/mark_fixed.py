#!/usr/bin/env python3
"""mark_fixed.py <key substring> <commit> — move the known finding(s) whose key contains the substring to `fixed`
(maintenance; a fixed entry suppresses nothing)."""
import json, os, sys
p = os.path.join(os.path.dirname(os.path.abspath(__file__)), "..", "known_findings.json")
k = json.load(open(p))
sub, commit = sys.argv[1], sys.argv[2]
keep, moved = [], []
for f in k["findings"]:
    (moved if sub in f["key"] else keep).append(f)
if not moved:
    sys.exit("no finding matches " + sub)
done = set()
for f in moved:
    if f["key"] in done:
        continue
    done.add(f["key"])
    props = sorted({g["property"] for g in moved if g["key"] == f["key"]})
    k["fixed"].append({"property": props[0], "commit": commit, "key": f["key"],
                       "what": "fixed: property=%s %s %s%s" % (props[0], commit, f["what"], (" (also %s)" % ", ".join(props[1:])) if props[1:] else "")})
k["findings"] = keep
json.dump(k, open(p, "w"), indent=1, sort_keys=True)
print("moved", len(moved), "entries")
