#!/usr/bin/env python3
"""Maintenance tool (never run by a check): list the panic-capable sites of all scopes that no automatic rule
discharges and merge them into tables/inventory.json with reason "UNREVIEWED".  A reviewer then replaces each
UNREVIEWED by the argument why the site is safe, or moves it to known_findings.json.  Entries whose reason is
still UNREVIEWED are ignored by the checks (the site is reported)."""
import json, os, sys
sys.path.insert(0, os.path.join(os.path.dirname(os.path.abspath(__file__)), "..", "rules"))
import mir, inv, scopes, common
F = mir.load("default")
sc = set()
for n in ("C04", "C13", "C12", "C19"):
    sc |= scopes.scope(F, getattr(scopes, n + "_ENTRIES"))
ctx = common.Ctx("TABLE", "quick", 0)
sites, stats = inv.inventory(ctx, F, sc, {})
p = os.path.join(mir.V, "tables", "inventory.json")
old = json.load(open(p)) if os.path.exists(p) else {}
new = {}
from collections import Counter
cnt = Counter((s.fn, s.kind, s.term) for s in sites if s.status == "open")
for (fn, kind, term), n in sorted(cnt.items()):
    prev = None
    for r in old.get(fn, []):
        if r["kind"] == kind and r["term"] == term:
            prev = r
    new.setdefault(fn, []).append({"kind": kind, "term": term, "n": n, "reason": prev["reason"] if prev else "UNREVIEWED"})
json.dump(new, open(p, "w"), indent=1, sort_keys=True)
print(stats, "functions:", len(new), "entries:", sum(len(v) for v in new.values()),
      "unreviewed:", sum(1 for v in new.values() for r in v if r["reason"] == "UNREVIEWED"))
