#!/usr/bin/env python3
"""Maintenance tool (never run by a check): list the panic-capable sites of all scopes that no automatic rule
discharges and merge them into tables/inventory.json with reason "UNREVIEWED".  A reviewer then replaces each
UNREVIEWED by the argument why the site is safe, or moves it to known_findings.json.  Entries whose reason is
still UNREVIEWED are ignored by the checks (the site is reported)."""
import json, os, sys
sys.path.insert(0, os.path.join(os.path.dirname(os.path.abspath(__file__)), "..", "rules"))
import mir, inv, scopes, common
F = mir.load("default")
sc = set()
for n in ("C04", "C13", "C12", "C19"):
    sc |= scopes.scope(F, getattr(scopes, n + "_ENTRIES"), with_fmt=(n in ("C04", "C13")))
ctx = common.Ctx("TABLE", "quick", 0)
sites, stats = inv.inventory(ctx, F, sc, {})
p = os.path.join(mir.V, "tables", "inventory.json")
old = json.load(open(p)) if os.path.exists(p) else {}
new = {}
from collections import Counter
# one candidate row per (file, function, kind, named term); reasons.py turns them into table rows keyed by
# (file, kind, name-abstracted term)
cnt = Counter((s.body.file, s.fn, s.kind, s.term, s.nterm) for s in sites if s.status == "open")
for (file, fn, kind, term, nterm), n in sorted(cnt.items()):
    new.setdefault(file, []).append({"fn": fn, "kind": kind, "term": term, "nterm": nterm, "n": n, "reason": "UNREVIEWED"})
json.dump(new, open(p, "w"), indent=1, sort_keys=True)
print(stats, "functions:", len(new), "entries:", sum(len(v) for v in new.values()),
      "unreviewed:", sum(1 for v in new.values() for r in v if r["reason"] == "UNREVIEWED"))
