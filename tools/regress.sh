#!/bin/bash
# regress.sh  — the self-validation corpus: every behaviour-preserving refactoring under benign/ must leave all checks silent,
# every confirmed adversarial change under seeded/ must be reported by the check of its property.  Applies each patch to
# /repo, runs the checks, and undoes it straight afterwards.  (Maintenance / thorough-tier tool; never part of a verdict.)
cd /verif
export VERIF_SCRATCH=1   # evidence of runs against a modified /repo goes to .cache/scratch-evidence
ALL="C01 C02 C03 C04 C05 C06 C07 C08 C09 C10 C11 C12 C13 C14 C15 C16 C17 C19"
fa=0; miss=0; nb=0; ns=0; skipped=0; kl=0
if [ "${1:-all}" != "seeded" ]; then
for d in /verif/benign/*/; do
  n=$(basename "$d")
  if ! git -C /repo apply --check "$d/patch.diff" 2>/dev/null; then echo "BENIGN $n: skipped (does not apply to the current tree)"; skipped=$((skipped+1)); continue; fi
  git -C /repo apply "$d/patch.diff"
  nb=$((nb+1)); al=""
  for c in $ALL; do ./check "$c" > /tmp/regress_out.txt 2>&1 || al="$al $c"; done
  git -C /repo checkout -- . && git -C /repo clean -fdq src
  if [ -n "$al" ]; then
    if grep -q "\"$n\"" /verif/benign/KNOWN_LIMITS.json; then echo "BENIGN $n: alarm in$al (KNOWN LIMIT, see benign/KNOWN_LIMITS.json)"; kl=$((kl+1)); else echo "BENIGN $n: FALSE ALARM in$al"; fa=$((fa+1)); fi
  else echo "BENIGN $n: silent"; fi
done
fi
if [ "${1:-all}" != "benign" ]; then
for d in /verif/seeded/*/; do
  n=$(basename "$d"); p=${n%%-*}
  if ! git -C /repo apply --check "$d/patch.diff" 2>/dev/null; then echo "SEEDED $n: skipped (does not apply to the current tree)"; skipped=$((skipped+1)); continue; fi
  git -C /repo apply "$d/patch.diff"
  ns=$((ns+1))
  if ./check "$p" > /tmp/regress_out.txt 2>&1; then echo "SEEDED $n: MISSED by $p"; miss=$((miss+1)); else echo "SEEDED $n: detected ($(grep -m1 -E '^  [A-Za-z-]+:' /tmp/regress_out.txt | cut -c1-110))"; fi
  git -C /repo checkout -- . && git -C /repo clean -fdq src
done
fi
echo "SUMMARY benign=$nb false_alarms=$fa known_limits=$kl seeded=$ns missed=$miss skipped=$skipped"
