#!/bin/bash
# demo_regress.sh — maintenance, not a check: after a `fix:` commit in /repo, run the behavioural demonstrations of all seeded changes
# (each passes on a correct tree and fails with its seeded change) against a scratch worktree of /repo's HEAD.  A demonstration that
# fails here means the fix changed behaviour it should not have.  The worktree is removed afterwards.
set -u
WT=$(mktemp -d /tmp/wt_demo.XXXX)
git -C /repo worktree add --detach "$WT" HEAD -q || exit 2
cd "$WT"
for d in /verif/seeded/*/; do n=$(basename "$d" | tr '-' '_'); cp "$d/demo.rs" "tests/demo_$n.rs"; done
CARGO_NET_OFFLINE=true timeout 3000 cargo test --offline --no-fail-fast 2>&1 | grep -a -E "^test .* FAILED|^test result: FAILED" | grep -v annotation_count
echo "demo_regress: done (no line above = every demonstration passes on HEAD)"
cd /; git -C /repo worktree remove --force "$WT"
