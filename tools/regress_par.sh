#!/bin/bash
# regress_par.sh [N] — the corpus of regress.sh (every benign/ refactoring must leave all 18 checks silent, every seeded/ change
# must be reported by the check of its property), sharded over N scratch copies of /verif, each with its own scratch git worktree
# of /repo (VERIF_REPO), so that a full run takes about 1/N of the time.  /repo itself is not touched.  The scratch copies and
# worktrees live under $REGRESS_SCRATCH (default /tmp/regress_par) and are removed at the end.
# (Maintenance / self-validation tool; never part of a verdict.)
N=${1:-6}
S=${REGRESS_SCRATCH:-/tmp/regress_par}
ALL="C01 C02 C03 C04 C05 C06 C07 C08 C09 C10 C11 C12 C13 C14 C15 C16 C17 C19"
for i in $(seq 1 $N); do [ -d "$S/r$i" ] && git -C /repo worktree remove --force "$S/r$i" 2>/dev/null; done
rm -rf "$S"; mkdir -p "$S"
{ for d in /verif/benign/*/; do echo "B $(basename $d)"; done; for d in /verif/seeded/*/; do echo "S $(basename $d)"; done; } > "$S/jobs"
for i in $(seq 1 $N); do
  rsync -a --exclude .git --exclude evidence /verif/ "$S/v$i/"
  git -C /repo worktree add -q --detach "$S/r$i" HEAD
  cp /repo/Cargo.lock "$S/r$i/Cargo.lock"      # not tracked: without it the first build would write one and change the tree under the extraction
  awk -v n=$N -v i=$i 'NR % n == i % n' "$S/jobs" > "$S/jobs$i"
  (
    cd "$S/v$i"; export VERIF_SCRATCH=1 VERIF_REPO="$S/r$i"
    while read kind n; do
      if [ "$kind" = B ]; then d=/verif/benign/$n; else d=/verif/seeded/$n; fi
      if ! git -C "$VERIF_REPO" apply --check "$d/patch.diff" 2>/dev/null; then
        [ "$kind" = B ] && echo "BENIGN $n: skipped (does not apply to the current tree)" || echo "SEEDED $n: skipped (does not apply to the current tree)"; continue; fi
      git -C "$VERIF_REPO" apply "$d/patch.diff"
      if [ "$kind" = B ]; then
        al=""
        for c in $ALL; do ./check "$c" > "$S/out$i.txt" 2>&1 || al="$al $c"; done
        if [ -n "$al" ]; then
          if grep -q "\"$n\"" /verif/benign/KNOWN_LIMITS.json; then echo "BENIGN $n: alarm in$al (KNOWN LIMIT, see benign/KNOWN_LIMITS.json)"; else echo "BENIGN $n: FALSE ALARM in$al"; fi
        else echo "BENIGN $n: silent"; fi
      else
        p=${n%%-*}
        if ./check "$p" > "$S/out$i.txt" 2>&1; then echo "SEEDED $n: MISSED by $p"; else echo "SEEDED $n: detected ($(grep -m1 -E '^  [A-Za-z-]+:' "$S/out$i.txt" | cut -c1-110))"; fi
      fi
      git -C "$VERIF_REPO" checkout -q -- . && git -C "$VERIF_REPO" clean -fdq src
    done < "$S/jobs$i" > "$S/log$i"
  ) &
done
wait
cat "$S"/log[0-9]* | sort
nb=$(cat "$S"/log[0-9]* | grep -c "^BENIGN .*: \(silent\|FALSE\|alarm\)"); fa=$(cat "$S"/log[0-9]* | grep -c "FALSE ALARM"); kl=$(cat "$S"/log[0-9]* | grep -c "KNOWN LIMIT")
ns=$(cat "$S"/log[0-9]* | grep -c "^SEEDED .*: \(detected\|MISSED\)"); miss=$(cat "$S"/log[0-9]* | grep -c ": MISSED"); sk=$(cat "$S"/log[0-9]* | grep -c ": skipped")
echo "SUMMARY benign=$nb false_alarms=$fa known_limits=$kl seeded=$ns missed=$miss skipped=$sk"
for i in $(seq 1 $N); do git -C /repo worktree remove --force "$S/r$i" 2>/dev/null; done
git -C /repo worktree prune
rm -rf "$S"
